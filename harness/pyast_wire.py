"""Python side of coq/Lang/PyAstWire.v: encode ast expressions / values for the models,
decode results; plus a seeded structured expression generator shared by the Lang checks."""
from __future__ import annotations

import ast
import math
from fractions import Fraction

BINOPS = [ast.Add, ast.Sub, ast.Mult, ast.Div, ast.FloorDiv, ast.Mod, ast.Pow, ast.BitAnd, ast.BitOr,
          ast.BitXor, ast.LShift, ast.RShift, ast.MatMult]
UNOPS = [ast.UAdd, ast.USub, ast.Not, ast.Invert]
CMPOPS = [ast.Eq, ast.NotEq, ast.Lt, ast.LtE, ast.Gt, ast.GtE]
OTHER_TAGS = {"Attribute": 1, "Lambda": 2, "ListComp": 3, "SetComp": 4, "DictComp": 5, "GeneratorExp": 6,
              "Starred": 7, "Await": 8, "Yield": 9, "YieldFrom": 10, "Dict": 11, "Set": 12, "NamedExpr": 13,
              "Slice": 14}


def enc_expr(n: ast.AST):
    if isinstance(n, ast.Expression):
        return enc_expr(n.body)
    if isinstance(n, ast.Constant):
        v = n.value
        if isinstance(v, bool):
            return [1, v]
        if isinstance(v, int):
            return [0, v]
        if isinstance(v, float):
            if math.isfinite(v):
                return [2, Fraction(v)]
            return [4]
        if isinstance(v, str):
            return [3, v]
        return [4]
    if isinstance(n, ast.Name):
        return [5, n.id]
    if isinstance(n, ast.BinOp):
        return [6, BINOPS.index(type(n.op)), enc_expr(n.left), enc_expr(n.right)]
    if isinstance(n, ast.UnaryOp):
        return [7, UNOPS.index(type(n.op)), enc_expr(n.operand)]
    if isinstance(n, ast.BoolOp):
        return [8, 0 if isinstance(n.op, ast.And) else 1, [enc_expr(v) for v in n.values]]
    if isinstance(n, ast.Compare):
        ops = [CMPOPS.index(type(o)) if type(o) in CMPOPS else 6 for o in n.ops]
        return [9, enc_expr(n.left), ops, [enc_expr(c) for c in n.comparators]]
    if isinstance(n, ast.IfExp):
        return [10, enc_expr(n.test), enc_expr(n.body), enc_expr(n.orelse)]
    if isinstance(n, ast.JoinedStr):
        return [11, [enc_expr(v) for v in n.values]]
    if isinstance(n, ast.FormattedValue):
        ok = n.conversion in (-1, None) and n.format_spec is None
        return [12, ok, enc_expr(n.value)]
    if isinstance(n, ast.Call):
        if any(isinstance(a, ast.Starred) for a in n.args) or any(k.arg is None for k in n.keywords):
            return [18, OTHER_TAGS["Starred"]]
        kws = [[k.arg, enc_expr(k.value)] for k in n.keywords]
        if isinstance(n.func, ast.Name):
            return [13, n.func.id, [enc_expr(a) for a in n.args], kws]
        if isinstance(n.func, ast.Attribute):
            return [14, enc_expr(n.func.value), n.func.attr, [enc_expr(a) for a in n.args], kws]
        return [18, 20]
    if isinstance(n, ast.List):
        return [15, [enc_expr(e) for e in n.elts]]
    if isinstance(n, ast.Tuple):
        return [16, [enc_expr(e) for e in n.elts]]
    if isinstance(n, ast.Subscript):
        if isinstance(n.slice, ast.Slice):
            return [18, OTHER_TAGS["Slice"]]
        return [17, enc_expr(n.value), enc_expr(n.slice)]
    return [18, OTHER_TAGS.get(type(n).__name__, 99)]


def enc_src(src: str):
    return enc_expr(ast.parse(src, mode="eval"))


def enc_val(v):
    if isinstance(v, bool):
        return [1, v]
    if isinstance(v, int):
        return [0, v]
    if isinstance(v, float):
        return [2, Fraction(v)]
    if isinstance(v, Fraction):
        return [2, v]
    if isinstance(v, str):
        return [3, v]
    if isinstance(v, list):
        return [4, [enc_val(x) for x in v]]
    if isinstance(v, tuple):
        return [5, [enc_val(x) for x in v]]
    if v is None:
        return [6]
    raise TypeError(repr(v))


def enc_env(env: dict):
    return [[k, enc_val(v)] for k, v in env.items()]


def dec_val(w):
    t = w[0]
    if t == 0:
        return w[1]
    if t == 1:
        return bool(w[1])
    if t == 2:
        return Fraction(w[1][0], w[1][1])
    if t == 3:
        return "".join(chr(c) for c in w[1])
    if t == 4:
        return [dec_val(x) for x in w[1]]
    if t == 5:
        return tuple(dec_val(x) for x in w[1])
    if t == 6:
        return None
    raise ValueError(w)


ERR = {1: "ZeroDivisionError", 2: "TypeError", 3: "NameError", 4: "ValueError", 5: "IndexError", 9: "OutOfModel"}


def dec_res(w):
    """-> ("ok", value) | ("err", kind)"""
    if w[0] == 0:
        return ("ok", dec_val(w[1]))
    return ("err", ERR.get(w[1], str(w[1])))


def same_value(model_v, py_v, tol=1e-9) -> bool:
    """model value (Fractions for floats) vs CPython value; type-exact, floats to tolerance"""
    if isinstance(model_v, Fraction):
        return isinstance(py_v, float) and math.isfinite(py_v) and abs(float(model_v) - py_v) <= tol * max(1.0, abs(py_v))
    if isinstance(model_v, bool) or isinstance(py_v, bool):
        return type(model_v) is type(py_v) and model_v == py_v
    if isinstance(model_v, (list, tuple)):
        return type(model_v) is type(py_v) and len(model_v) == len(py_v) and all(same_value(a, b, tol) for a, b in zip(model_v, py_v))
    return type(model_v) is type(py_v) and model_v == py_v


# ---------------------------------------------------------------- generator
INT_LITS = [0, 1, 2, 3, 5, 7, 10, -1, -2, -7, 255, 256, 100, 1000, -300]
FLOAT_LITS = [0.0, 0.5, 1.5, 2.5, -0.5, -2.5, 3.0, 0.25, 100.0, 7.75]
STR_LITS = ["", "a", "ab", "hello", "12", " 7 ", "x y"]


BIG_RHS = [5, 31, 63, 64, 100, 1000, 1365, 1366, 2047, 2048, 2049, 4093, 4094, 4095, 4096, 4097, 5000]


def gen_expr(rng, depth, names=(), kinds=("int", "float", "bool", "str"), allow_calls=True, allow_div=True, big_rhs=False):
    """returns Python source of a random expression (mostly well-typed numerics); big_rhs: exponents and shift counts
    are also drawn around and far beyond the evaluator's size bound (default off: same stream as before)"""
    def lit():
        k = rng.choice(kinds)
        if k == "int":
            return repr(rng.choice(INT_LITS))
        if k == "float":
            return repr(rng.choice(FLOAT_LITS))
        if k == "bool":
            return rng.choice(["True", "False"])
        return repr(rng.choice(STR_LITS))

    def atom():
        if names and rng.random() < 0.45:
            return rng.choice(list(names))
        s = lit()
        return f"({s})" if s.startswith("-") else s

    def go(d):
        if d <= 0 or rng.random() < 0.2:
            return atom()
        r = rng.random()
        if r < 0.45:
            ops = ["+", "-", "*"] + (["/", "//", "%"] if allow_div else []) + (["**", "&", "|", "^", "<<", ">>"] if rng.random() < 0.25 else [])
            op = rng.choice(ops)
            rhs = go(d - 1)
            if op in ("**", "<<", ">>"):
                rhs = str(rng.choice([0, 1, 2, 3]))
                if big_rhs and rng.random() < 0.6:
                    rhs = str(rng.choice(BIG_RHS))
            return f"({go(d - 1)} {op} {rhs})"
        if r < 0.55:
            return f"({rng.choice(['-', '+', 'not '])}{go(d - 1)})"
        if r < 0.68:
            op = rng.choice(["==", "!=", "<", "<=", ">", ">="])
            if rng.random() < 0.2:
                op2 = rng.choice(["<", "<=", ">", ">=", "=="])
                return f"({go(d - 1)} {op} {go(d - 1)} {op2} {go(d - 1)})"
            return f"({go(d - 1)} {op} {go(d - 1)})"
        if r < 0.78:
            op = rng.choice(["and", "or"])
            return "(" + f" {op} ".join(go(d - 1) for _ in range(rng.choice([2, 2, 3]))) + ")"
        if r < 0.85:
            return f"({go(d - 1)} if {go(d - 1)} else {go(d - 1)})"
        if r < 0.97 and allow_calls:
            f = rng.choice(["abs", "min", "max", "int", "float", "bool", "len", "str"])
            if f in ("min", "max"):
                return f"{f}(" + ", ".join(go(d - 1) for _ in range(rng.choice([1, 2, 2, 3]))) + ")"
            if f == "len":
                return f"len({repr(rng.choice(STR_LITS))})" if rng.random() < 0.7 else f"len({go(d - 1)})"
            return f"{f}({go(d - 1)})"
        if "str" in kinds:
            return "f\"" + rng.choice(["v=", "", "a "]) + "{" + go(d - 1).replace('"', "'") + "}" + rng.choice(["", " end"]) + "\""
        return atom()

    return go(depth)
