"""Validates the reference Python semantics coq/Lang/PySem.v against CPython's eval on
generated expressions (support for every Lang theorem whose spec side is PySem)."""
from __future__ import annotations

from fractions import Fraction

from harness import common as C
from harness import pyast_wire as W


def _encv(v):
    if isinstance(v, bool):
        return ["bool", v]
    if isinstance(v, int):
        return ["int", str(v)]
    if isinstance(v, float):
        f = Fraction(v)
        return ["float", str(f.numerator), str(f.denominator)]
    if isinstance(v, str):
        return ["str", v]
    if isinstance(v, list):
        return ["list", [_encv(x) for x in v]]
    if isinstance(v, tuple):
        return ["tuple", [_encv(x) for x in v]]
    return ["none"]


def _dec(w):
    t = w[0]
    if t == "bool":
        return bool(w[1])
    if t == "int":
        return int(w[1])
    if t == "float":
        return int(w[1]) / int(w[2])
    if t == "str":
        return w[1]
    if t == "list":
        return [_dec(x) for x in w[1]]
    if t == "tuple":
        return tuple(_dec(x) for x in w[1])
    return None


def cpython_eval(cases):
    """cases: [(src, env dict)] -> [("ok", value) | ("err", kind) | ("skip", why)]"""
    raw = C.run_impl("pyeval_impl.py", {"cases": [[s, {k: _encv(v) for k, v in e.items()}] for s, e in cases]})
    out = []
    for r in raw:
        if r[0] == "ok":
            if r[1][0] in ("special", "other"):
                out.append(("skip", r[1][0]))
            else:
                out.append(("ok", _dec(r[1])))
        else:
            out.append(("err", r[1]))
    return out


def compare(model_res, py_res):
    """model ('ok', v)/('err', kind) vs CPython; returns 'agree' | 'oom' | 'skip' | 'DISAGREE'"""
    if model_res == ("err", "OutOfModel"):
        return "oom"
    if py_res[0] == "skip" or py_res == ("err", "OverflowError") or py_res == ("err", "MemoryError"):
        return "skip"
    if py_res[0] == "ok":
        return "agree" if model_res[0] == "ok" and W.same_value(model_res[1], py_res[1]) else "DISAGREE"
    return "agree" if model_res == ("err", py_res[1]) else "DISAGREE"


def validate_pysem(exe, cases):
    """exe: extracted Wire/PySemW model; cases [(src, env)] -> (stats dict, [disagreements])"""
    py = cpython_eval(cases)
    model = C.run_model(exe, [[W.enc_env(e), W.enc_src(s)] for s, e in cases])
    stats = {"agree": 0, "oom": 0, "skip": 0, "DISAGREE": 0}
    bad = []
    for (s, e), p, m in zip(cases, py, model):
        k = compare(W.dec_res(m), p)
        stats[k] += 1
        if k == "DISAGREE":
            bad.append({"src": s, "env": e, "cpython": p, "model": W.dec_res(m)})
    return stats, bad
