#!/venv/bin/python
"""harness/seedall.py [Cxx ...]  - re-run every kept seeded change (seeded/<name>/) against the current checks
(one property after the other; each run uses a scratch worktree of /repo) and rewrite seeded/SUMMARY.md."""
import json
import subprocess
import sys
from pathlib import Path

VERIF = Path(__file__).resolve().parents[1]


def main():
    only = set(sys.argv[1:])
    rows = []
    for d in sorted((VERIF / "seeded").iterdir()):
        if not (d / "meta.json").exists():
            continue
        meta = json.loads((d / "meta.json").read_text())
        pid = meta["property"]
        if not only or pid in only:
            subprocess.run([str(VERIF / "harness" / "seedkeep.py"), pid, str(d), d.name], capture_output=True, text=True, timeout=7200)
            meta = json.loads((d / "meta.json").read_text())
        chk = next((v for k, v in meta.get("what_i_ran", {}).items() if k.startswith("./check")), {})
        what = (meta.get("what_i_ran", {}).get("first replay") or {}).get("what", "")
        rows.append((d.name, pid, meta.get("title", ""), "yes" if meta.get("detected") else (f"by ./check {meta['detected_by_related']}" if meta.get("detected_by_related") else "NO"),
                     "no-failing-input-found" if any("no-failing-input-found" in v for v in chk.get("violations", [])) else ("concrete replay" if meta.get("detected") else ""),
                     what[:140].replace("|", "/").replace("\n", " ")))
    out = ["# Seeded changes (each breaks one property, compiles, passes the 123 unit tests) and what the checks say",
           "", "| seeded | property | change | detected by `./check <property>` (quick) | kind | first replay |", "|---|---|---|---|---|---|"]
    out += [f"| {a} | {b} | {c} | {d} | {e} | {f} |" for a, b, c, d, e, f in rows]
    (VERIF / "seeded" / "SUMMARY.md").write_text("\n".join(out) + "\n")
    print("\n".join(out))


if __name__ == "__main__":
    main()
