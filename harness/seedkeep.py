#!/venv/bin/python
"""harness/seedkeep.py Cxx <mutant_dir> <name> [--tier quick]
Confirm a seeded change independently (tests pass, demo fails with it and passes without it) in a scratch
worktree of /repo, run ./check Cxx against it, and keep it as /verif/seeded/<name>/ (patch.diff, demo.py, meta.json)."""
import json
import os
import shutil
import subprocess
import sys
import tempfile
from pathlib import Path

VERIF = Path(__file__).resolve().parents[1]
# properties whose checks exercise the same code from another clause
RELATED = {
    "C01": ["C02", "C03", "C05", "C06", "C09"], "C02": ["C01", "C06"], "C03": ["C01", "C09", "C11"], "C04": ["C19", "C08"],
    "C05": ["C01", "C18", "C15", "C07", "C06"], "C06": ["C02", "C01", "C05", "C14"], "C07": ["C01", "C05", "C06"],
    "C08": ["C16", "C17", "C04", "C15", "C18"], "C09": ["C03", "C01", "C06"], "C10": ["C11", "C06"], "C11": ["C10", "C03"],
    "C12": ["C13", "C14"], "C13": ["C12"], "C14": ["C12", "C06"], "C15": ["C05", "C20", "C08"], "C16": ["C08"], "C17": ["C08", "C18"],
    "C18": ["C17", "C05"], "C19": ["C04"], "C20": ["C15"],
}


def main():
    pid, mdir, name = sys.argv[1], Path(sys.argv[2]), sys.argv[3]
    tier = sys.argv[sys.argv.index("--tier") + 1] if "--tier" in sys.argv else "quick"
    os.makedirs("/tmp/seed", exist_ok=True)
    wt = Path(tempfile.mkdtemp(prefix=f"{pid}-", dir="/tmp/seed"))
    wt.rmdir()
    subprocess.run(["git", "-C", "/repo", "worktree", "add", "-q", "--detach", str(wt), "HEAD"], check=True)
    ran = {}
    try:
        r = subprocess.run(["git", "-C", str(wt), "apply", str(mdir / "patch.diff")], capture_output=True, text=True)
        ran["git apply"] = "ok" if r.returncode == 0 else r.stderr[-300:]
        if r.returncode != 0:
            print(json.dumps(ran, indent=1))
            return 2
        t = subprocess.run(["/venv/bin/python", "-m", "pytest", "-p", "no:cacheprovider", "--timeout=900", "--tb=no", "-o", "addopts="],
                           capture_output=True, text=True, cwd=str(wt), timeout=1800,
                           env={k: v for k, v in os.environ.items() if k != "REDUINO_VERIF"})
        tail = [l for l in t.stdout.splitlines() if "passed" in l or "failed" in l or "error" in l.lower()]
        ran["pytest on changed tree"] = f"exit {t.returncode}: " + (tail[-1] if tail else t.stdout[-200:]).strip()
        envm = dict(os.environ, PYTHONPATH=str(wt / "src"))
        d = subprocess.run(["/venv/bin/python", str(mdir / "demo.py")], capture_output=True, text=True, env=envm, cwd=str(wt), timeout=900)
        ran["demo on changed tree"] = f"exit {d.returncode}: {(d.stdout + d.stderr).strip()[-300:]}"
        envc = dict(os.environ, PYTHONPATH="/repo/src")
        d2 = subprocess.run(["/venv/bin/python", str(mdir / "demo.py")], capture_output=True, text=True, env=envc, cwd="/repo", timeout=900)
        ran["demo on unchanged tree"] = f"exit {d2.returncode}"
        confirmed = (t.returncode == 0 and d.returncode != 0 and d2.returncode == 0)
        env = dict(os.environ, REDUINO_REPO=str(wt))
        c = subprocess.run([str(VERIF / "check"), pid, "--tier", tier], capture_output=True, text=True, env=env, cwd=str(VERIF), timeout=7200)
        viol = [l for l in c.stdout.splitlines() if l.startswith("VIOLATION")]
        ran[f"./check {pid} --tier {tier} (REDUINO_REPO=scratch worktree with the patch)"] = {
            "exit": c.returncode, "violations": viol[:3],
            "summary": (c.stdout.strip().splitlines() or [c.stderr[-300:]])[-1]}
        # a change breaks behaviour, not a property id: when the check of the property the tester aimed at stays
        # silent, the checks of the neighbouring properties (same code, other clause) are tried as well
        also = {}
        if not viol and "--no-related" not in sys.argv:
            for q in RELATED.get(pid, []):
                cq = subprocess.run([str(VERIF / "check"), q, "--tier", tier], capture_output=True, text=True, env=env, cwd=str(VERIF), timeout=7200)
                vq = [l for l in cq.stdout.splitlines() if l.startswith("VIOLATION")]
                also[q] = {"exit": cq.returncode, "violations": vq[:2]}
                if vq:
                    try:
                        data = json.loads(Path(vq[0].split("replay=")[1].split()[0]).read_text())
                        also[q]["first replay"] = {"what": data.get("what") or data.get("kind"), "case": json.dumps(data.get("case"), default=str)[:300]}
                    except Exception:
                        pass
                    break
            ran["checks of related properties (tried because the property's own check stayed silent)"] = also
        if viol:
            try:
                rp = viol[0].split("replay=")[1].split()[0]
                data = json.loads(Path(rp).read_text())
                ran["first replay"] = {"what": data.get("what") or data.get("kind"),
                                       "case": json.dumps(data.get("case"), default=str)[:400]}
            except Exception:
                pass
    finally:
        subprocess.run(["git", "-C", "/repo", "worktree", "remove", "--force", str(wt)])
    meta = json.loads((mdir / "meta.json").read_text()) if (mdir / "meta.json").exists() else {}
    meta["property"] = pid
    meta["confirmed_independently"] = confirmed
    meta["what_i_ran"] = ran
    meta["detected"] = bool(viol)
    meta["detected_by_related"] = next((q for q, v in (also or {}).items() if v.get("violations")), None)
    print(json.dumps(meta, indent=1)[:3000])
    if confirmed:
        out = VERIF / "seeded" / name
        out.mkdir(parents=True, exist_ok=True)
        if mdir.resolve() != out.resolve():
            shutil.copy(mdir / "patch.diff", out / "patch.diff")
            shutil.copy(mdir / "demo.py", out / "demo.py")
        (out / "meta.json").write_text(json.dumps(meta, indent=1) + "\n")
        print("kept as", out)
    else:
        print("NOT confirmed; not kept")
    return 0


if __name__ == "__main__":
    sys.exit(main())
