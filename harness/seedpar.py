#!/venv/bin/python
"""harness/seedpar.py [-j N] [--new Cxx:<dir>:<name> ...] [name ...]
Run harness/seedkeep.py for many seeded changes in parallel.  The checks of one /verif tree share one build
directory, so each worker gets its own copy of the /verif working tree (outside /verif, removed afterwards);
the resulting seeded/<name>/ directories are copied back.  Without names: every seeded/<name>/ is re-run.
Afterwards seeded/SUMMARY.md is rewritten (harness/seedall.py with a property filter that matches nothing)."""
import json
import shutil
import subprocess
import sys
import tempfile
from concurrent.futures import ThreadPoolExecutor
from pathlib import Path
from queue import Queue

VERIF = Path(__file__).resolve().parents[1]


def main():
    args = sys.argv[1:]
    jobs = 4
    if "-j" in args:
        i = args.index("-j")
        jobs = int(args[i + 1])
        del args[i:i + 2]
    work = []  # (pid, source dir, name)
    names = []
    i = 0
    while i < len(args):
        if args[i] == "--new":
            pid, src, name = args[i + 1].split(":")
            work.append((pid, Path(src), name))
            i += 2
        else:
            names.append(args[i])
            i += 1
    if not work and not names:
        names = sorted(d.name for d in (VERIF / "seeded").iterdir() if (d / "meta.json").exists())
    for n in names:
        d = VERIF / "seeded" / n
        work.append((json.loads((d / "meta.json").read_text())["property"], d, n))
    root = Path(tempfile.mkdtemp(prefix="vshard-", dir="/tmp"))
    pool = Queue()
    for k in range(min(jobs, len(work))):
        c = root / str(k)
        subprocess.run(["rsync", "-a", "--exclude", ".git", "--exclude", "build/evidence-scratch", "--exclude", "build/replays-scratch",
                        str(VERIF) + "/", str(c) + "/"], check=True)
        pool.put(c)

    def one(item):
        pid, src, name = item
        c = pool.get()
        try:
            # the source directory inside the copy when it is a kept one, else the given directory
            s = c / "seeded" / name if src == VERIF / "seeded" / name else src
            r = subprocess.run([str(c / "harness" / "seedkeep.py"), pid, str(s), name], capture_output=True, text=True, timeout=10800)
            out = c / "seeded" / name
            if (out / "meta.json").exists():
                dst = VERIF / "seeded" / name
                dst.mkdir(parents=True, exist_ok=True)
                for f in out.iterdir():
                    if f.is_file():
                        shutil.copy2(f, dst / f.name)
            meta = json.loads((out / "meta.json").read_text()) if (out / "meta.json").exists() else {}
            if "kept as" not in r.stdout:
                # seedkeep did not confirm the change on the current /repo (tests fail, or the demo no longer fails with
                # the change / no longer passes without it): the old meta.json is left as it is - say so
                line = f"{name}: NOT CONFIRMED on the current /repo (meta.json left unchanged) rc={r.returncode}"
            else:
                line = f"{name}: confirmed={meta.get('confirmed_independently')} detected={meta.get('detected')} related={meta.get('detected_by_related')} rc={r.returncode}"
            print(line, flush=True)
            return line
        finally:
            pool.put(c)

    with ThreadPoolExecutor(max_workers=jobs) as ex:
        list(ex.map(one, work))
    shutil.rmtree(root, ignore_errors=True)
    subprocess.run([str(VERIF / "harness" / "seedall.py"), "NONE"], capture_output=True, text=True)


if __name__ == "__main__":
    main()
