#!/venv/bin/python
"""Run a property check against a seeded change without touching /repo:
   harness/seedtest.py Cxx <mutant_dir with patch.diff [demo.py]> [--tier quick]
creates a scratch worktree of /repo under /tmp/seed/, applies the patch, runs the demo and
`REDUINO_REPO=<scratch> ./check Cxx`, prints a JSON summary, removes the worktree."""
import json
import os
import shutil
import subprocess
import sys
import tempfile
from pathlib import Path

VERIF = Path(__file__).resolve().parents[1]


def main():
    pid, mdir = sys.argv[1], Path(sys.argv[2])
    tier = sys.argv[sys.argv.index("--tier") + 1] if "--tier" in sys.argv else "quick"
    os.makedirs("/tmp/seed", exist_ok=True)
    wt = Path(tempfile.mkdtemp(prefix=f"{pid}-", dir="/tmp/seed"))
    wt.rmdir()
    subprocess.run(["git", "-C", "/repo", "worktree", "add", "-q", "--detach", str(wt), "HEAD"], check=True)
    out = {"property": pid, "mutant": str(mdir)}
    try:
        r = subprocess.run(["git", "-C", str(wt), "apply", str(mdir / "patch.diff")], capture_output=True, text=True)
        out["applied"] = r.returncode == 0
        if r.returncode != 0:
            out["apply_err"] = r.stderr[-500:]
            print(json.dumps(out, indent=1))
            return 2
        if (mdir / "demo.py").exists():
            env = dict(os.environ, PYTHONPATH=str(wt / "src"))
            d = subprocess.run(["/venv/bin/python", str(mdir / "demo.py")], capture_output=True, text=True, env=env, cwd=str(wt), timeout=300)
            out["demo_rc_mutated"] = d.returncode
            env2 = dict(os.environ, PYTHONPATH="/repo/src")
            d2 = subprocess.run(["/venv/bin/python", str(mdir / "demo.py")], capture_output=True, text=True, env=env2, cwd="/repo", timeout=300)
            out["demo_rc_clean"] = d2.returncode
        if "--tests" in sys.argv:
            t = subprocess.run(["/venv/bin/python", "-m", "pytest", "-q", "-p", "no:cacheprovider"], capture_output=True, text=True, cwd=str(wt), timeout=900)
            out["tests"] = t.stdout.strip().splitlines()[-1] if t.stdout.strip() else ""
        env = dict(os.environ, REDUINO_REPO=str(wt))
        c = subprocess.run([str(VERIF / "check"), pid, "--tier", tier], capture_output=True, text=True, env=env, cwd=str(VERIF), timeout=3600)
        out["check_rc"] = c.returncode
        out["violations"] = [l for l in c.stdout.splitlines() if l.startswith("VIOLATION")][:5]
        out["summary"] = c.stdout.strip().splitlines()[-1] if c.stdout.strip() else c.stderr[-300:]
        # first replay for the record
        if out["violations"]:
            rp = out["violations"][0].split("replay=")[1].split()[0]
            try:
                data = json.loads(Path(rp).read_text())
                out["replay_what"] = data.get("what") or data.get("kind")
            except Exception:
                pass
    finally:
        subprocess.run(["git", "-C", "/repo", "worktree", "remove", "--force", str(wt)])
    print(json.dumps(out, indent=1))
    return 0


if __name__ == "__main__":
    sys.exit(main())
