"""progen statement trees -> annotated pstmt wire encoding for coq/Wire/C01_stmtW.v, and
comparison of the model's IR with the real parser's IR shape."""
from __future__ import annotations

import ast

TY = {"int": 0, "float": 1, "bool": 2, "str": 3}
TYN = {0: "int", 1: "float", 2: "bool", 3: "String"}
BINOPS = {"+": (0, "Add"), "-": (1, "Sub"), "*": (2, "Mult"), "/": (3, "Div"), "//": (4, "FloorDiv"), "%": (5, "Mod")}
REP = {"int": 3, "float": 1.5, "bool": True, "str": "s"}


class Annotator:
    """collects expression sources (ids = positions) and infers their Python types by
    evaluating them on representative values of the variables' types"""

    def __init__(self, funcs=()):
        self.exprs = []          # source per id
        self.types = {}          # variable -> "int"|"float"|"bool"|"str"
        self.ok = True

    def pytype(self, src):
        env = {k: REP[v] for k, v in self.types.items()}
        try:
            v = eval(src, {"__builtins__": {"abs": abs, "min": min, "max": max, "int": int, "float": float, "bool": bool, "len": len, "str": str},
                           "analog_read": lambda p: 3, "digital_read": lambda p: 1}, env)
        except ZeroDivisionError:
            return "int"
        except Exception:
            self.ok = False
            return "int"
        if isinstance(v, bool):
            return "bool"
        if isinstance(v, int):
            return "int"
        if isinstance(v, float):
            return "float"
        if isinstance(v, str):
            return "str"
        self.ok = False
        return "int"

    def ann(self, src, ty=None):
        i = len(self.exprs)
        self.exprs.append(src)
        if ty is not None:
            fv = sorted({n.id for n in ast.walk(ast.parse(src, mode="eval")) if isinstance(n, ast.Name)
                         and n.id not in ("abs", "min", "max", "int", "float", "bool", "len", "str", "analog_read", "digital_read", "digital_write", "analog_write", "True", "False")})
            return {"id": i, "ty": ty, "fv": fv, "src": src}
        fv = sorted({n.id for n in ast.walk(ast.parse(src, mode="eval")) if isinstance(n, ast.Name)
                     and n.id not in ("abs", "min", "max", "int", "float", "bool", "len", "str", "analog_read", "digital_read", "True", "False")})
        return {"id": i, "ty": self.pytype(src), "fv": fv, "src": src}

    def stmts(self, body, loopvars=()):
        out = []
        for s in body:
            k = s[0]
            if k == "assign":
                a = self.ann(s[2])
                self.types[s[1]] = a["ty"]
                out.append(["assign", s[1], a])
            elif k == "aug":
                a = self.ann(s[3])
                t_after = self.pytype(f"({s[1]} {s[2]} ({s[3]}))")
                self.types[s[1]] = t_after
                out.append(["aug", s[1], s[2], a, t_after])
            elif k == "swap":
                a1, a2 = self.ann(s[2]), self.ann(s[1])
                self.types[s[1]], self.types[s[2]] = a1["ty"], a2["ty"]
                out.append(["tuple", [s[1], s[2]], [a1, a2]])
            elif k == "tuple":
                anns = [self.ann(e) for e in s[2]]
                for n, a in zip(s[1], anns):
                    self.types[n] = a["ty"]
                out.append(["tuple", list(s[1]), anns])
            elif k == "write":
                out.append(["write", self.ann(s[1])])
            elif k == "sleep":
                out.append(["sleep", self.ann(s[1])])
            elif k == "dw":
                out.append(["exprs", self.ann(f"digital_write({s[1]}, {s[2]})", ty="int")])
            elif k == "aw":
                out.append(["exprs", self.ann(f"analog_write({s[1]}, {s[2]})", ty="int")])
            elif k == "read":
                fn = "analog_read" if s[2] == "analog" else "digital_read"
                a = self.ann(f"{fn}({s[3]})")
                self.types[s[1]] = "int"
                out.append(["assign", s[1], a])
            elif k == "if":
                saved = dict(self.types)
                brs, new = [], {}
                for c, b in s[1]:
                    ca = self.ann(c)
                    self.types = dict(saved)
                    brs.append([ca, self.stmts(b)])
                    new.update({n: t for n, t in self.types.items() if n not in saved and n not in new})
                self.types = dict(saved)
                els = self.stmts(s[2])
                new.update({n: t for n, t in self.types.items() if n not in saved and n not in new})
                self.types = dict(saved)
                self.types.update(new)          # names first assigned in a branch stay known (hoisted by the parser)
                out.append(["if", brs, els])
            elif k == "while":
                ca = self.ann(s[1])
                saved = dict(self.types)
                b = self.stmts(s[2])
                new = {n: t for n, t in self.types.items() if n not in saved}
                self.types = saved
                self.types.update(new)
                out.append(["while", ca, b])
            elif k == "for":
                ca = self.ann(s[2])
                saved = dict(self.types)
                self.types[s[1]] = "int"
                b = self.stmts(s[3])
                new = {n: t for n, t in self.types.items() if n not in saved and n != s[1]}
                self.types = saved
                self.types.update(new)
                out.append(["for", s[1], ca, b])
            elif k == "break":
                out.append(["break"])
            elif k == "continue":
                out.append(["continue"])
            elif k == "pass":
                continue
            else:
                self.ok = False
        return out


def wire_ann(a, consts):
    return [a["id"], TY[a["ty"]], bool(consts[a["id"]]), list(a["fv"])]


def wire_stmts(stmts, consts):
    out = []
    for s in stmts:
        k = s[0]
        if k == "assign":
            out.append([0, s[1], wire_ann(s[2], consts)])
        elif k == "aug":
            out.append([1, s[1], BINOPS[s[2]][0], wire_ann(s[3], consts), TY[s[4]]])
        elif k == "tuple":
            out.append([2, list(s[1]), [wire_ann(a, consts) for a in s[2]]])
        elif k == "if":
            (c0, b0), rest = s[1][0], s[1][1:]
            out.append([3, wire_ann(c0, consts), wire_stmts(b0, consts),
                        [[wire_ann(c, consts), wire_stmts(b, consts)] for c, b in rest], wire_stmts(s[2], consts)])
        elif k == "while":
            out.append([4, wire_ann(s[1], consts), wire_stmts(s[2], consts)])
        elif k == "for":
            out.append([5, s[1], wire_ann(s[2], consts), wire_stmts(s[3], consts)])
        elif k == "break":
            out.append([6])
        elif k == "continue":
            out.append([10])
        elif k == "write":
            out.append([7, wire_ann(s[1], consts)])
        elif k == "sleep":
            out.append([8, wire_ann(s[1], consts)])
        elif k == "exprs":
            out.append([9, wire_ann(s[1], consts)])
    return out


def _txt(w):
    return "".join(chr(c) for c in w)


def render_cexpr(w, ctexts, meta):
    t = w[0]
    if t == 0:
        return ctexts[w[1]]
    if t == 1:
        return meta["defaults"][TYN[w[1]]]
    if t == 2:
        return f"__tmp_assign_{w[1]}"
    if t == 3:
        opname = [v[1] for v in BINOPS.values() if v[0] == w[2]][0]
        form = (meta.get("bin_forms") or {}).get(opname, "({l} " + meta["bin"][opname] + " {r})")
        if form is None:
            raise ValueError(f"the parser rejects the operator {opname}")
        return form.replace("{l}", _txt(w[1])).replace("{r}", ctexts[w[3]])
    raise ValueError(w)


def model_shape(nodes, ctexts, meta, exprs):
    """model IR (wire) -> the same JSON shape the impl runner produces"""
    out = []
    for n in nodes:
        t = n[0]
        if t == 0:
            out.append(["decl", _txt(n[1]), meta["cpp"][TYN[n[2]]], render_cexpr(n[3], ctexts, meta), bool(n[4])])
        elif t == 1:
            out.append(["decl", f"__tmp_assign_{n[1]}", meta["cpp"][TYN[n[2]]], render_cexpr(n[3], ctexts, meta), False])
        elif t == 2:
            out.append(["assign", _txt(n[1]), render_cexpr(n[2], ctexts, meta)])
        elif t == 3:
            out.append(["if", [[ctexts[c], model_shape(b, ctexts, meta, exprs)] for c, b in n[1]], model_shape(n[2], ctexts, meta, exprs)])
        elif t == 4:
            out.append(["while", ctexts[n[1]], model_shape(n[2], ctexts, meta, exprs)])
        elif t == 5:
            out.append(["for", _txt(n[1]), folded(exprs[n[2]], ctexts[n[2]]), model_shape(n[3], ctexts, meta, exprs)])
        elif t == 6:
            out.append(["break"])
        elif t == 7:
            out.append(["write", ctexts[n[1]]])
        elif t == 8:
            out.append(["sleep", folded(exprs[n[1]], ctexts[n[1]])])
        elif t == 9:
            out.append(["exprs", ctexts[n[1]]])
        elif t == 10:
            out.append(["continue"])
        elif t == 11:
            out.append(["return"])
    return out


def folded(src, ctext):
    """_resolve_numeric_arg folds a name-free constant expression to its int value"""
    try:
        node = ast.parse(src, mode="eval").body
        if not any(isinstance(x, ast.Name) for x in ast.walk(node)):
            v = eval(src, {"__builtins__": {"abs": abs, "min": min, "max": max, "int": int}}, {})
            if isinstance(v, bool):
                return str(1 if v else 0)
            if isinstance(v, (int, float)):
                return str(int(v))
    except Exception:
        pass
    return ctext


DEFAULTS = ("0", "0.0", "false", '""', "0.0f")


def canon_promoted(nodes):
    """runs of consecutive default-initialised local declarations (hoisted names), or of assignments of a
    default literal (hoisted declarations rewritten by an outer hoisting), are compared as sorted runs: their
    relative order is set-iteration order in the real parser (property C10) and they commute"""
    out, run = [], []
    for n in nodes:
        if (n[0] == "decl" and n[4] is False and n[3] in DEFAULTS) or (n[0] == "assign" and n[2] in DEFAULTS):
            # hoisted declarations, and hoisted declarations that an outer hoisting rewrote to `x = <default>;`
            run.append(n)
            continue
        if run:
            out.extend(sorted(run))
            run = []
        if n[0] == "if":
            n = ["if", [[c, canon_promoted(b)] for c, b in n[1]], canon_promoted(n[2])]
        elif n[0] in ("while",):
            n = ["while", n[1], canon_promoted(n[2])]
        elif n[0] == "for":
            n = ["for", n[1], n[2], canon_promoted(n[3])]
        out.append(n)
    if run:
        out.extend(sorted(run))
    return out
