"""Value-level comparison of a firmware trace (mock core) with the CPython reference trace."""
from __future__ import annotations

KEEP = ("S ", "D ", "DW ", "AW ", "PM ", "DR ", "AR ", "M loop", "T ", "NT ")


def fw_events(events):
    out = []
    for e in events:
        if e.startswith(KEEP):
            out.append(e)
    return out


def py_events(events):
    return [e for e in events if e.startswith(KEEP)]


def _num(s):
    try:
        return float(s)
    except ValueError:
        return None


def same_serial(fw_text: str, py_payload: str, strict_text=False) -> bool:
    """fw 'S text' vs py 'S text\ttype' at value level (DESIGN C01: bool 1/0 = True/False,
    floats to the 2 decimals Arduino prints)."""
    if "\t" in py_payload:
        text, ty = py_payload.rsplit("\t", 1)
    else:
        text, ty = py_payload, "str"
    if strict_text:
        return fw_text == text
    if ty == "bool":
        return fw_text == ("1" if text == "True" else "0")
    if ty == "float":
        a, b = _num(fw_text), _num(text)
        return a is not None and b is not None and abs(a - b) <= 0.0051 + 1e-9 * abs(b)
    return fw_text == text


def compare(fw, py, strict_text=False):
    """returns None if equal, else dict(index, fw, py)"""
    a, b = fw_events(fw), py_events(py)
    n = min(len(a), len(b))
    for i in range(n):
        x, y = a[i], b[i]
        if x.startswith("S ") and y.startswith("S "):
            if not same_serial(x[2:], y[2:], strict_text):
                return {"index": i, "fw": x, "py": y}
        elif x.startswith("D ") and y.startswith("D "):
            if _num(x[2:]) != _num(y[2:]):
                return {"index": i, "fw": x, "py": y}
        elif x.startswith("AW ") and y.startswith("AW "):
            xs, ys = x.split(), y.split()
            if xs[1] != ys[1] or _num(xs[2]) != _num(ys[2]):
                return {"index": i, "fw": x, "py": y}
        elif x != y:
            return {"index": i, "fw": x, "py": y}
    if len(a) != len(b):
        return {"index": n, "fw": a[n] if n < len(a) else None, "py": b[n] if n < len(b) else None}
    return None
