// Mock Arduino core for the Reduino verification harness (hosted g++/clang++).
// Every observable action prints one event line on stdout; inputs are scripted
// (file named by $REDU_INPUT).  This file is the *definition of "device"* for the
// checks and is part of the trusted base (DESIGN.md section 3).
#pragma once
#include <stdint.h>
#include <stddef.h>
#include <stdlib.h>
#include <string.h>
#include <stdio.h>
#include <math.h>
#include <string>
#include <vector>
#include <map>

typedef uint8_t byte;
typedef bool boolean;
typedef uint16_t word;

#define HIGH 1
#define LOW 0
#define INPUT 0
#define OUTPUT 1
#define INPUT_PULLUP 2
#define LED_BUILTIN 13
#define A0 14
#define A1 15
#define A2 16
#define A3 17
#define A4 18
#define A5 19
#define A6 20
#define A7 21
#ifndef PI
#define PI 3.1415926535897932384626433832795
#endif
#define DEC 10
#define HEX 16
#define OCT 8
#define BIN 2

class __FlashStringHelper;
#define F(s) (reinterpret_cast<const __FlashStringHelper *>(s))
#define PROGMEM
#define PSTR(s) (s)

// ---- event sink / scripted inputs (implemented in mock_core.cpp)
void __mock_event(const char *fmt, ...);
std::string __mock_escape(const std::string &s);
unsigned long __mock_now_ms();

void pinMode(int pin, int mode);
void digitalWrite(int pin, int value);
int digitalRead(int pin);
void analogWrite(int pin, int value);
int analogRead(int pin);
void delay(unsigned long ms);
void delayMicroseconds(unsigned int us);
unsigned long millis();
unsigned long micros();
unsigned long pulseIn(int pin, int state, unsigned long timeout = 1000000UL);
void tone(int pin, unsigned int frequency, unsigned long duration = 0);
void noTone(int pin);
long random(long howbig);
long random(long howsmall, long howbig);
void randomSeed(unsigned long seed);
long map(long x, long in_min, long in_max, long out_min, long out_max);

class String {
 public:
  std::string s;
  String(const char *c = "") : s(c ? c : "") {}
  String(const std::string &x, int) : s(x) {}
  String(const String &o) : s(o.s) {}
  String(const __FlashStringHelper *f) : s(reinterpret_cast<const char *>(f)) {}
  explicit String(char c) : s(1, c) {}
  explicit String(unsigned char v, unsigned char base = 10) { s = itoa_((long long)v, base); }
  explicit String(int v, unsigned char base = 10) { s = itoa_((long long)v, base); }
  explicit String(unsigned int v, unsigned char base = 10) { s = itoa_((long long)v, base); }
  explicit String(long v, unsigned char base = 10) { s = itoa_((long long)v, base); }
  explicit String(unsigned long v, unsigned char base = 10) { s = utoa_((unsigned long long)v, base); }
  explicit String(float v, unsigned char dp = 2) { s = ftoa_(v, dp); }
  explicit String(double v, unsigned char dp = 2) { s = ftoa_(v, dp); }
  String &operator=(const String &o) { s = o.s; return *this; }
  String &operator=(const char *c) { s = c ? c : ""; return *this; }
  String &operator=(const __FlashStringHelper *f) { s = reinterpret_cast<const char *>(f); return *this; }
  unsigned int length() const { return (unsigned int)s.size(); }
  const char *c_str() const { return s.c_str(); }
  bool concat(const String &o) { s += o.s; return true; }
  String &operator+=(const String &o) { s += o.s; return *this; }
  String &operator+=(const char *c) { if (c) s += c; return *this; }
  String &operator+=(char c) { s += c; return *this; }
  String &operator+=(unsigned char v) { s += String(v).s; return *this; }
  String &operator+=(int v) { s += String(v).s; return *this; }
  String &operator+=(unsigned int v) { s += String(v).s; return *this; }
  String &operator+=(long v) { s += String(v).s; return *this; }
  String &operator+=(unsigned long v) { s += String(v).s; return *this; }
  String &operator+=(float v) { s += String(v).s; return *this; }
  String &operator+=(double v) { s += String(v).s; return *this; }
  String &operator+=(const __FlashStringHelper *f) { s += reinterpret_cast<const char *>(f); return *this; }
  char operator[](unsigned int i) const { return i < s.size() ? s[i] : 0; }
  char &operator[](unsigned int i) { static char dummy; if (i >= s.size()) { dummy = 0; return dummy; } return s[i]; }
  char charAt(unsigned int i) const { return (*this)[i]; }
  void setCharAt(unsigned int i, char c) { if (i < s.size()) s[i] = c; }
  bool equals(const String &o) const { return s == o.s; }
  bool equals(const char *c) const { return s == (c ? c : ""); }
  bool equalsIgnoreCase(const String &o) const;
  int compareTo(const String &o) const { return s.compare(o.s); }
  bool operator==(const String &o) const { return s == o.s; }
  bool operator==(const char *c) const { return s == (c ? c : ""); }
  bool operator!=(const String &o) const { return s != o.s; }
  bool operator!=(const char *c) const { return s != (c ? c : ""); }
  bool operator<(const String &o) const { return s < o.s; }
  bool operator>(const String &o) const { return s > o.s; }
  bool operator<=(const String &o) const { return s <= o.s; }
  bool operator>=(const String &o) const { return s >= o.s; }
  String substring(unsigned int from) const { return substring(from, (unsigned int)s.size()); }
  String substring(unsigned int from, unsigned int to) const {
    if (from > to) { unsigned int t = from; from = to; to = t; }
    if (from >= s.size()) return String("");
    if (to > s.size()) to = (unsigned int)s.size();
    return String(s.substr(from, to - from), 0);
  }
  int indexOf(char c, unsigned int from = 0) const { size_t p = s.find(c, from); return p == std::string::npos ? -1 : (int)p; }
  int indexOf(const String &o, unsigned int from = 0) const { size_t p = s.find(o.s, from); return p == std::string::npos ? -1 : (int)p; }
  int lastIndexOf(char c) const { size_t p = s.rfind(c); return p == std::string::npos ? -1 : (int)p; }
  bool startsWith(const String &o) const { return s.compare(0, o.s.size(), o.s) == 0 && s.size() >= o.s.size(); }
  bool endsWith(const String &o) const { return s.size() >= o.s.size() && s.compare(s.size() - o.s.size(), o.s.size(), o.s) == 0; }
  void toUpperCase() { for (auto &c : s) c = (char)toupper((unsigned char)c); }
  void toLowerCase() { for (auto &c : s) c = (char)tolower((unsigned char)c); }
  void trim();
  void replace(const String &a, const String &b);
  void replace(char a, char b) { for (auto &c : s) if (c == a) c = b; }
  void remove(unsigned int idx) { if (idx < s.size()) s.erase(idx); }
  void remove(unsigned int idx, unsigned int cnt) { if (idx < s.size()) s.erase(idx, cnt); }
  long toInt() const { return atol(s.c_str()); }
  float toFloat() const { return (float)atof(s.c_str()); }
  double toDouble() const { return atof(s.c_str()); }
  bool reserve(unsigned int) { return true; }
  static std::string itoa_(long long v, unsigned char base);
  static std::string utoa_(unsigned long long v, unsigned char base);
  static std::string ftoa_(double v, unsigned char dp);
};

inline String operator+(const String &a, const String &b) { String r(a); r += b; return r; }
inline String operator+(const String &a, const char *b) { String r(a); r += b; return r; }
inline String operator+(const char *a, const String &b) { String r(a); r += b; return r; }
inline String operator+(const String &a, char b) { String r(a); r += b; return r; }
inline String operator+(const String &a, unsigned char b) { String r(a); r += b; return r; }
inline String operator+(const String &a, int b) { String r(a); r += b; return r; }
inline String operator+(const String &a, unsigned int b) { String r(a); r += b; return r; }
inline String operator+(const String &a, long b) { String r(a); r += b; return r; }
inline String operator+(const String &a, unsigned long b) { String r(a); r += b; return r; }
inline String operator+(const String &a, float b) { String r(a); r += b; return r; }
inline String operator+(const String &a, double b) { String r(a); r += b; return r; }
inline String operator+(const String &a, const __FlashStringHelper *b) { String r(a); r += b; return r; }

class Print {
 public:
  virtual ~Print() {}
  virtual size_t write(uint8_t c) = 0;
  size_t write(const char *str) { size_t n = 0; if (str) while (*str) n += write((uint8_t)*str++); return n; }
  size_t print(const String &v) { return write(v.c_str()); }
  size_t print(const char *v) { return write(v); }
  size_t print(const __FlashStringHelper *v) { return write(reinterpret_cast<const char *>(v)); }
  size_t print(char v) { return write((uint8_t)v); }
  size_t print(unsigned char v, int base = DEC) { return print((unsigned long)v, base); }
  size_t print(int v, int base = DEC) { return print((long)v, base); }
  size_t print(unsigned int v, int base = DEC) { return print((unsigned long)v, base); }
  size_t print(long v, int base = DEC);
  size_t print(unsigned long v, int base = DEC);
  size_t print(double v, int digits = 2);
  size_t println() { return write("\r\n"); }
  template <typename T> size_t println(const T &v) { size_t n = print(v); return n + println(); }
  template <typename T> size_t println(const T &v, int a) { size_t n = print(v, a); return n + println(); }
};

class HardwareSerial : public Print {
 public:
  std::string line;
  std::string input;
  size_t pos = 0;
  void begin(unsigned long baud);
  void end() {}
  size_t write(uint8_t c) override;
  using Print::write;
  int available() { return (int)(input.size() - pos); }
  int read() { return pos < input.size() ? (unsigned char)input[pos++] : -1; }
  int peek() { return pos < input.size() ? (unsigned char)input[pos] : -1; }
  void flush() {}
  void setTimeout(unsigned long) {}
  String readStringUntil(char term);
  String readString();
  long parseInt();
  float parseFloat();
  operator bool() const { return true; }
  void __mock_flush_partial();
};
extern HardwareSerial Serial;

// heap accounting (C09)
long __mock_live_blocks();
long __mock_live_bytes();

void setup();
void loop();

// Arduino's macros (arguments may be evaluated twice, as on the real core)
#ifdef abs
#undef abs
#endif
#define min(a, b) ((a) < (b) ? (a) : (b))
#define max(a, b) ((a) > (b) ? (a) : (b))
#define abs(x) ((x) > 0 ? (x) : -(x))
#define constrain(amt, low, high) ((amt) < (low) ? (low) : ((amt) > (high) ? (high) : (amt)))
#define round(x) ((x) >= 0 ? (long)((x) + 0.5) : (long)((x)-0.5))
#define radians(deg) ((deg)*DEG_TO_RAD)
#define degrees(rad) ((rad)*RAD_TO_DEG)
#define sq(x) ((x) * (x))
#define DEG_TO_RAD 0.017453292519943295769236907684886
#define RAD_TO_DEG 57.295779513082320876798154814105
#define bitRead(value, bit) (((value) >> (bit)) & 0x01)
#define bitSet(value, bit) ((value) |= (1UL << (bit)))
#define bitClear(value, bit) ((value) &= ~(1UL << (bit)))
#define lowByte(w) ((uint8_t)((w)&0xff))
#define highByte(w) ((uint8_t)((w) >> 8))
