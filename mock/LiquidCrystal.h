#pragma once
#include <Arduino.h>
#include <__MockLcdBase.h>
class LiquidCrystal : public __MockLcdBase {
 public:
  LiquidCrystal(int rs, int en, int d4, int d5, int d6, int d7);
  LiquidCrystal(int rs, int rw, int en, int d4, int d5, int d6, int d7);
  LiquidCrystal(int rs, int en, int d0, int d1, int d2, int d3, int d4, int d5, int d6, int d7);
  LiquidCrystal(int rs, int rw, int en, int d0, int d1, int d2, int d3, int d4, int d5, int d6, int d7);
  void begin(uint8_t c, uint8_t r, uint8_t charsize = 0);
  int clamp_row(int row) override;
};
