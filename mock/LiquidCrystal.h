#pragma once
#include <Arduino.h>
// Mock of the HD44780 text LCD drivers: keeps DDRAM (2 x 40 bytes), an address
// counter that auto-increments, and the row offsets of the respective real library.
class __MockLcdBase : public Print {
 public:
  int id;
  int cols = 16, rows = 2;
  int row_offsets[4] = {0x00, 0x40, 0x10, 0x50};
  int addr = 0;
  bool cgram_mode = false; int cgaddr = 0;
  unsigned char ddram[128];
  unsigned char cgram[64];
  bool begun = false;
  __MockLcdBase();
  void __begin(int c, int r, const char *kind);
  void clear();
  void home();
  void setCursor(uint8_t col, uint8_t row);
  virtual int clamp_row(int row) = 0;
  size_t write(uint8_t c) override;
  using Print::write;
  void createChar(uint8_t loc, uint8_t charmap[]);
  void display(); void noDisplay();
  void cursor() {} void noCursor() {} void blink() {} void noBlink() {}
  void scrollDisplayLeft() {} void scrollDisplayRight() {} void autoscroll() {} void noAutoscroll() {}
  void leftToRight() {} void rightToLeft() {}
  void __dump();
};
class LiquidCrystal : public __MockLcdBase {
 public:
  LiquidCrystal(int rs, int en, int d4, int d5, int d6, int d7);
  LiquidCrystal(int rs, int rw, int en, int d4, int d5, int d6, int d7);
  LiquidCrystal(int rs, int en, int d0, int d1, int d2, int d3, int d4, int d5, int d6, int d7);
  LiquidCrystal(int rs, int rw, int en, int d0, int d1, int d2, int d3, int d4, int d5, int d6, int d7);
  void begin(uint8_t c, uint8_t r, uint8_t charsize = 0);
  int clamp_row(int row) override;
};
void __mock_lcd_dump_all();
