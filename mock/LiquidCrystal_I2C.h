#pragma once
#include <Arduino.h>
#include <__MockLcdBase.h>
class LiquidCrystal_I2C : public __MockLcdBase {
 public:
  int i2c_addr;
  LiquidCrystal_I2C(uint8_t addr, uint8_t c, uint8_t r);
  void init();
  void begin();
  void begin(uint8_t c, uint8_t r, uint8_t charsize = 0);
  void backlight();
  void noBacklight();
  void setBacklight(uint8_t v) { if (v) backlight(); else noBacklight(); }
  int clamp_row(int row) override;
};
