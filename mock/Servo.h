#pragma once
#include <Arduino.h>
class Servo {
 public:
  int pin = -1, minp = 544, maxp = 2400, last_us = 1500;
  uint8_t attach(int p) { return attach(p, 544, 2400); }
  uint8_t attach(int p, int mn, int mx) { pin = p; minp = mn; maxp = mx; __mock_event("SVA %d %d %d", p, mn, mx); return 0; }
  void detach() { __mock_event("SVD %d", pin); pin = -1; }
  void write(int value) {
    // real library: values < 544 (MIN_PULSE_WIDTH) are angles, clamped to 0..180
    __mock_event("SVW %d %d", pin, value);
    if (value < 544) { if (value < 0) value = 0; if (value > 180) value = 180; last_us = (int)(minp + (long)(maxp - minp) * value / 180); }
    else last_us = value;
  }
  void writeMicroseconds(int us) { __mock_event("SVU %d %d", pin, us); last_us = us; }
  int read() { return (int)((long)(last_us - minp) * 180 / (maxp - minp)); }
  int readMicroseconds() { return last_us; }
  bool attached() { return pin >= 0; }
};
