#pragma once
#include <Arduino.h>
class TwoWire { public: void begin() { __mock_event("WIRE begin"); } void setClock(unsigned long) {} };
extern TwoWire Wire;
