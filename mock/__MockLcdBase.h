#pragma once
#include <Arduino.h>
// Shared base of the two mock LCD drivers.  It lives in its own header so that each library CLASS is visible
// only when its own header is included (as with the real libraries: <LiquidCrystal_I2C.h> does not declare
// LiquidCrystal and vice versa) - a sketch that instantiates a class without including its header must not compile.
// Mock of the HD44780 text LCD drivers: keeps DDRAM (2 x 40 bytes), an address
// counter that auto-increments, and the row offsets of the respective real library.
class __MockLcdBase : public Print {
 public:
  int id;
  int cols = 16, rows = 2;
  int row_offsets[4] = {0x00, 0x40, 0x10, 0x50};
  int addr = 0;
  bool cgram_mode = false; int cgaddr = 0;
  unsigned char ddram[128];
  unsigned char cgram[64];
  bool begun = false;
  __MockLcdBase();
  void __begin(int c, int r, const char *kind);
  void clear();
  void home();
  void setCursor(uint8_t col, uint8_t row);
  virtual int clamp_row(int row) = 0;
  size_t write(uint8_t c) override;
  using Print::write;
  void createChar(uint8_t loc, uint8_t charmap[]);
  void display(); void noDisplay();
  void cursor() {} void noCursor() {} void blink() {} void noBlink() {}
  void scrollDisplayLeft() {} void scrollDisplayRight() {} void autoscroll() {} void noAutoscroll() {}
  void leftToRight() {} void rightToLeft() {}
  void __dump();
};
void __mock_lcd_dump_all();
