// Implementation of the mock Arduino core + main().  See Arduino.h.
#include <stdarg.h>
#include <new>
#include <fstream>
#include <sstream>
#include <Arduino.h>
#include <Wire.h>
#include <LiquidCrystal.h>
#include <LiquidCrystal_I2C.h>
#undef min
#undef max
#undef abs
#undef round

HardwareSerial Serial;
TwoWire Wire;

static unsigned long long g_now_us = 0;
// C15: offset (ms) added to millis() only, so that a run can start near the roll-over of unsigned long
// (input line "clockbase <ms>", any value up to ULONG_MAX; default 0 = previous behaviour).  The sum wraps modulo
// 2^(bits of unsigned long) exactly like the counter of a real core; g_now_us stays the monotone time since clock0.
static unsigned long g_ms_base = 0;
static std::map<int, std::vector<long>> g_dr, g_ar, g_pi;
static std::map<int, size_t> g_dr_i, g_ar_i, g_pi_i;
static std::vector<long> g_drift, g_pass;
static size_t g_drift_i = 0;
static std::map<int, int> g_pin_mode, g_pin_out;
static int g_loops = 0;
static bool g_lcd_dump = false, g_heap = false, g_reads = true;
static std::vector<__MockLcdBase *> &lcds() { static std::vector<__MockLcdBase *> *v = new std::vector<__MockLcdBase *>(); return *v; }
static long g_live_blocks = 0, g_live_bytes = 0;

void __mock_event(const char *fmt, ...) {
  va_list ap;
  va_start(ap, fmt);
  vprintf(fmt, ap);
  va_end(ap);
  putchar('\n');
}

std::string __mock_escape(const std::string &s) {
  std::string o;
  char buf[8];
  for (unsigned char c : s) {
    if (c == '\\') o += "\\\\";
    else if (c >= 0x20 && c < 0x7f) o += (char)c;
    else { snprintf(buf, sizeof buf, "\\x%02x", c); o += buf; }
  }
  return o;
}

unsigned long __mock_now_ms() { return (unsigned long)(g_ms_base + (unsigned long)(g_now_us / 1000ULL)); }

static long next_input(std::map<int, std::vector<long>> &m, std::map<int, size_t> &idx, int pin, bool &have) {
  auto it = m.find(pin);
  if (it == m.end() || it->second.empty()) { have = false; return 0; }
  have = true;
  size_t &i = idx[pin];
  long v = it->second[i < it->second.size() ? i : it->second.size() - 1];
  if (i < it->second.size()) ++i;
  return v;
}

void pinMode(int pin, int mode) { g_pin_mode[pin] = mode; __mock_event("PM %d %d", pin, mode); }
void digitalWrite(int pin, int value) { g_pin_out[pin] = value ? 1 : 0; __mock_event("DW %d %d", pin, value ? 1 : 0); }
int digitalRead(int pin) {
  bool have; long v = next_input(g_dr, g_dr_i, pin, have);
  if (!have) {
    auto it = g_pin_out.find(pin);
    if (it != g_pin_out.end()) v = it->second;
    else v = (g_pin_mode.count(pin) && g_pin_mode[pin] == INPUT_PULLUP) ? 1 : 0;
  }
  if (g_reads) __mock_event("DR %d %d", pin, (int)(v ? 1 : 0));
  return v ? 1 : 0;
}
void analogWrite(int pin, int value) { __mock_event("AW %d %d", pin, value); }
int analogRead(int pin) {
  bool have; long v = next_input(g_ar, g_ar_i, pin, have);
  if (g_reads) __mock_event("AR %d %d", pin, (int)v);
  return (int)v;
}
void delay(unsigned long ms) {
  long drift = 0;
  if (!g_drift.empty()) { drift = g_drift[g_drift_i < g_drift.size() ? g_drift_i : g_drift.size() - 1]; if (g_drift_i < g_drift.size()) ++g_drift_i; }
  __mock_event("D %lu", ms);
  g_now_us += (unsigned long long)ms * 1000ULL + (unsigned long long)drift * 1000ULL;
}
void delayMicroseconds(unsigned int us) { __mock_event("DU %u", us); g_now_us += us; }
unsigned long millis() { return __mock_now_ms(); }
unsigned long micros() { return (unsigned long)g_now_us; }
unsigned long pulseIn(int pin, int state, unsigned long timeout) {
  bool have; long v = next_input(g_pi, g_pi_i, pin, have);
  if (v < 0) v = 0;
  if ((unsigned long)v > timeout) v = 0;
  __mock_event("PI %d %d %lu %ld", pin, state, timeout, v);
  g_now_us += v > 0 ? (unsigned long long)v : (unsigned long long)timeout;
  return (unsigned long)v;
}
void tone(int pin, unsigned int frequency, unsigned long duration) {
  if (duration) __mock_event("T %d %u %lu", pin, frequency, duration); else __mock_event("T %d %u", pin, frequency);
}
void noTone(int pin) { __mock_event("NT %d", pin); }
static unsigned long g_rand = 1;
long random(long howbig) { if (howbig <= 0) return 0; g_rand = g_rand * 1103515245UL + 12345UL; return (long)((g_rand >> 16) % (unsigned long)howbig); }
long random(long a, long b) { if (a >= b) return a; return random(b - a) + a; }
void randomSeed(unsigned long s) { if (s) g_rand = s; }
long map(long x, long in_min, long in_max, long out_min, long out_max) { return (x - in_min) * (out_max - out_min) / (in_max - in_min) + out_min; }

// ---------------- String helpers
std::string String::itoa_(long long v, unsigned char base) {
  if (base == 10) return std::to_string(v);
  return utoa_((unsigned long long)(unsigned long)v, base);
}
std::string String::utoa_(unsigned long long v, unsigned char base) {
  if (base < 2) base = 10;
  if (v == 0) return "0";
  std::string o;
  while (v) { int d = (int)(v % base); o.insert(o.begin(), (char)(d < 10 ? '0' + d : 'a' + d - 10)); v /= base; }
  return o;
}
std::string String::ftoa_(double v, unsigned char dp) {
  // avr-libc dtostrf(value, dp + 2, dp, buf)
  char buf[64];
  if (std::isnan(v)) return "nan";
  if (std::isinf(v)) return v < 0 ? "-inf" : "inf";
  snprintf(buf, sizeof buf, "%*.*f", dp + 2, dp, v);
  return buf;
}
bool String::equalsIgnoreCase(const String &o) const {
  if (s.size() != o.s.size()) return false;
  for (size_t i = 0; i < s.size(); ++i) if (tolower((unsigned char)s[i]) != tolower((unsigned char)o.s[i])) return false;
  return true;
}
void String::trim() {
  size_t a = 0, b = s.size();
  while (a < b && isspace((unsigned char)s[a])) ++a;
  while (b > a && isspace((unsigned char)s[b - 1])) --b;
  s = s.substr(a, b - a);
}
void String::replace(const String &a, const String &b) {
  if (a.s.empty()) return;
  size_t p = 0;
  while ((p = s.find(a.s, p)) != std::string::npos) { s.replace(p, a.s.size(), b.s); p += b.s.size(); }
}

// ---------------- Print (Arduino's Print.cpp algorithms)
size_t Print::print(long v, int base) {
  if (base == 10) { if (v < 0) { size_t n = write((uint8_t)'-'); return n + print((unsigned long)(-(v + 1)) + 1UL, 10); } return print((unsigned long)v, 10); }
  return print((unsigned long)v, base);
}
size_t Print::print(unsigned long v, int base) { return write(String::utoa_(v, (unsigned char)(base < 2 ? 10 : base)).c_str()); }
size_t Print::print(double number, int digits) {
  size_t n = 0;
  if (std::isnan(number)) return write("nan");
  if (std::isinf(number)) return write("inf");
  if (number > 4294967040.0) return write("ovf");
  if (number < -4294967040.0) return write("ovf");
  if (number < 0.0) { n += write((uint8_t)'-'); number = -number; }
  double rounding = 0.5;
  for (int i = 0; i < digits; ++i) rounding /= 10.0;
  number += rounding;
  unsigned long int_part = (unsigned long)number;
  double remainder = number - (double)int_part;
  n += print(int_part, 10);
  if (digits > 0) n += write((uint8_t)'.');
  while (digits-- > 0) {
    remainder *= 10.0;
    unsigned int toPrint = (unsigned int)(remainder);
    n += print((unsigned long)toPrint, 10);
    remainder -= toPrint;
  }
  return n;
}

// ---------------- Serial
void HardwareSerial::begin(unsigned long baud) { __mock_event("SB %lu", baud); }
size_t HardwareSerial::write(uint8_t c) {
  if (c == '\n') { if (!line.empty() && line.back() == '\r') line.pop_back(); __mock_event("S %s", __mock_escape(line).c_str()); line.clear(); }
  else line += (char)c;
  return 1;
}
void HardwareSerial::__mock_flush_partial() { if (!line.empty()) { __mock_event("SP %s", __mock_escape(line).c_str()); line.clear(); } }
String HardwareSerial::readStringUntil(char term) {
  std::string o;
  while (pos < input.size()) { char c = input[pos++]; if (c == term) break; o += c; }
  return String(o, 0);
}
String HardwareSerial::readString() { std::string o = input.substr(pos); pos = input.size(); return String(o, 0); }
long HardwareSerial::parseInt() {
  while (pos < input.size() && !(isdigit((unsigned char)input[pos]) || input[pos] == '-')) ++pos;
  size_t st = pos; if (pos < input.size() && input[pos] == '-') ++pos;
  while (pos < input.size() && isdigit((unsigned char)input[pos])) ++pos;
  return atol(input.substr(st, pos - st).c_str());
}
float HardwareSerial::parseFloat() {
  while (pos < input.size() && !(isdigit((unsigned char)input[pos]) || input[pos] == '-' || input[pos] == '.')) ++pos;
  size_t st = pos; if (pos < input.size() && input[pos] == '-') ++pos;
  while (pos < input.size() && (isdigit((unsigned char)input[pos]) || input[pos] == '.')) ++pos;
  return (float)atof(input.substr(st, pos - st).c_str());
}

// ---------------- LCD
__MockLcdBase::__MockLcdBase() { id = (int)lcds().size(); lcds().push_back(this); memset(ddram, ' ', sizeof ddram); memset(cgram, 0, sizeof cgram); }
void __MockLcdBase::__begin(int c, int r, const char *kind) {
  cols = c; rows = r; begun = true; addr = 0; cgram_mode = false;
  memset(ddram, ' ', sizeof ddram);
  __mock_event("LB %d %s %d %d", id, kind, c, r);
}
void __MockLcdBase::clear() { memset(ddram, ' ', sizeof ddram); addr = 0; cgram_mode = false; __mock_event("LCLR %d", id); }
void __MockLcdBase::home() { addr = 0; cgram_mode = false; __mock_event("LHOME %d", id); }
void __MockLcdBase::setCursor(uint8_t col, uint8_t row) {
  int r = clamp_row(row);
  addr = (col + row_offsets[r & 3]) & 0x7f;
  cgram_mode = false;
  __mock_event("LSC %d %d %d", id, (int)col, (int)row);
}
size_t __MockLcdBase::write(uint8_t c) {
  if (cgram_mode) { cgram[cgaddr & 63] = c; cgaddr = (cgaddr + 1) & 63; return 1; }
  int a = addr;
  // HD44780 2-line mode: valid addresses 0x00-0x27 and 0x40-0x67
  int rr = -1, cc = a;
  for (int r = 0; r < rows && r < 4; ++r) {
    if (a >= row_offsets[r] && a < row_offsets[r] + cols) { rr = r; cc = a - row_offsets[r]; break; }
  }
  ddram[a & 0x7f] = c;
  __mock_event("LW %d %d %d %d", id, rr, cc, (int)c);
  // auto-increment with HD44780 wrap
  if (a == 0x27) addr = 0x40; else if (a == 0x67) addr = 0x00; else addr = (a + 1) & 0x7f;
  return 1;
}
void __MockLcdBase::createChar(uint8_t loc, uint8_t charmap[]) {
  loc &= 0x7;
  for (int i = 0; i < 8; ++i) cgram[loc * 8 + i] = charmap[i];
  __mock_event("LCG %d %d %d %d %d %d %d %d %d %d", id, (int)loc, charmap[0], charmap[1], charmap[2], charmap[3], charmap[4], charmap[5], charmap[6], charmap[7]);
  cgram_mode = true; cgaddr = ((loc + 1) * 8) & 63;   // real library leaves the controller in CGRAM mode until the next setCursor/clear/home
}
void __MockLcdBase::display() { __mock_event("LDISP %d 1", id); }
void __MockLcdBase::noDisplay() { __mock_event("LDISP %d 0", id); }
void __MockLcdBase::__dump() {
  for (int r = 0; r < rows && r < 4; ++r) {
    std::string row;
    for (int c = 0; c < cols; ++c) row += (char)ddram[(row_offsets[r] + c) & 0x7f];
    __mock_event("LD %d %d %s", id, r, __mock_escape(row).c_str());
  }
}
void __mock_lcd_dump_all() { for (auto *l : lcds()) l->__dump(); }

LiquidCrystal::LiquidCrystal(int rs, int en, int d4, int d5, int d6, int d7) { __mock_event("LNEW %d parallel %d %d %d %d %d %d", id, rs, en, d4, d5, d6, d7); }
LiquidCrystal::LiquidCrystal(int rs, int rw, int en, int d4, int d5, int d6, int d7) { __mock_event("LNEW %d parallel %d %d %d %d %d %d rw %d", id, rs, en, d4, d5, d6, d7, rw); }
LiquidCrystal::LiquidCrystal(int rs, int en, int d0, int d1, int d2, int d3, int d4, int d5, int d6, int d7) { __mock_event("LNEW %d parallel8 %d %d %d %d %d %d %d %d %d %d", id, rs, en, d0, d1, d2, d3, d4, d5, d6, d7); }
LiquidCrystal::LiquidCrystal(int rs, int rw, int en, int d0, int d1, int d2, int d3, int d4, int d5, int d6, int d7) { __mock_event("LNEW %d parallel8 %d %d %d %d %d %d %d %d %d %d rw %d", id, rs, en, d0, d1, d2, d3, d4, d5, d6, d7, rw); }
void LiquidCrystal::begin(uint8_t c, uint8_t r, uint8_t) {
  row_offsets[0] = 0x00; row_offsets[1] = 0x40; row_offsets[2] = 0x00 + c; row_offsets[3] = 0x40 + c;
  __begin(c, r, "parallel");
}
int LiquidCrystal::clamp_row(int row) {
  const int max_lines = 4;
  if (row >= max_lines) row = max_lines - 1;
  if (row >= rows) row = rows - 1;
  return row < 0 ? 0 : row;
}
LiquidCrystal_I2C::LiquidCrystal_I2C(uint8_t a, uint8_t c, uint8_t r) : i2c_addr(a) {
  cols = c; rows = r;
  row_offsets[0] = 0x00; row_offsets[1] = 0x40; row_offsets[2] = 0x14; row_offsets[3] = 0x54;
  __mock_event("LNEW %d i2c %d %d %d", id, (int)a, (int)c, (int)r);
}
void LiquidCrystal_I2C::init() { __begin(cols, rows, "i2c"); }
void LiquidCrystal_I2C::begin() { init(); }
void LiquidCrystal_I2C::begin(uint8_t c, uint8_t r, uint8_t) { cols = c; rows = r; init(); }
void LiquidCrystal_I2C::backlight() { __mock_event("LBL %d 1", id); }
void LiquidCrystal_I2C::noBacklight() { __mock_event("LBL %d 0", id); }
int LiquidCrystal_I2C::clamp_row(int row) {
  if (row > rows) row = rows - 1;   // sic: the real library's test is '>'
  return row < 0 ? 0 : (row > 3 ? 3 : row);
}

// ---------------- heap accounting for array new/delete (the list helpers use new T[]/delete[])
long __mock_live_blocks() { return g_live_blocks; }
long __mock_live_bytes() { return g_live_bytes; }
void *operator new[](size_t n) {
  size_t *p = (size_t *)malloc(n + 16);
  if (!p) throw std::bad_alloc();
  p[0] = n; p[1] = 0xA11Cu;
  ++g_live_blocks; g_live_bytes += (long)n;
  return (void *)(p + 2);
}
void operator delete[](void *q) noexcept {
  if (!q) return;
  size_t *p = ((size_t *)q) - 2;
  if (p[1] != 0xA11Cu) { __mock_event("HEAPERR bad-or-double-free"); fflush(stdout); return; }
  p[1] = 0xDEADu;
  --g_live_blocks; g_live_bytes -= (long)p[0];
  free(p);
}
void operator delete[](void *q, size_t) noexcept { operator delete[](q); }

// ---------------- scripted inputs + main
static void load_inputs() {
  const char *path = getenv("REDU_INPUT");
  const char *loops = getenv("REDU_LOOPS");
  if (loops) g_loops = atoi(loops);
  g_lcd_dump = getenv("REDU_LCD_DUMP") != nullptr;
  g_heap = getenv("REDU_HEAP") != nullptr;
  if (getenv("REDU_NO_READ_EVENTS")) g_reads = false;
  if (!path) return;
  std::ifstream f(path);
  std::string ln;
  while (std::getline(f, ln)) {
    std::istringstream is(ln);
    std::string k;
    if (!(is >> k)) continue;
    if (k == "loops") { is >> g_loops; }
    else if (k == "dr" || k == "ar" || k == "pi") {
      int pin; is >> pin; long v; std::vector<long> vs; while (is >> v) vs.push_back(v);
      (k == "dr" ? g_dr : k == "ar" ? g_ar : g_pi)[pin] = vs;
    } else if (k == "clock0") { long ms; is >> ms; g_now_us = (unsigned long long)ms * 1000ULL; }
    else if (k == "clockbase") { std::string v; is >> v; g_ms_base = (unsigned long)strtoull(v.c_str(), nullptr, 10); }
    else if (k == "drift") { long v; while (is >> v) g_drift.push_back(v); }
    else if (k == "pass") { long v; while (is >> v) g_pass.push_back(v); }
    else if (k == "serial") { std::string rest; std::getline(is, rest); if (!rest.empty() && rest[0] == ' ') rest.erase(0, 1);
      std::string o; for (size_t i = 0; i < rest.size(); ++i) { if (rest[i] == '\\' && i + 1 < rest.size() && rest[i + 1] == 'n') { o += '\n'; ++i; } else o += rest[i]; } Serial.input += o; }
  }
}

static void after_phase() {
  Serial.__mock_flush_partial();
  if (g_lcd_dump) __mock_lcd_dump_all();
  if (g_heap) __mock_event("HEAP %ld %ld", g_live_blocks, g_live_bytes);
}

int main() {
  setvbuf(stdout, nullptr, _IOFBF, 1 << 16);
  load_inputs();
  __mock_event("M setup");
  setup();
  after_phase();
  for (int k = 0; k < g_loops; ++k) {
    if (!g_pass.empty()) { long e = g_pass[(size_t)k < g_pass.size() ? (size_t)k : g_pass.size() - 1]; g_now_us += (unsigned long long)e * 1000ULL; }
    __mock_event("M loop %d", k);
    loop();
    after_phase();
  }
  __mock_event("M end");
  fflush(stdout);
  return 0;
}
